#!/usr/bin/env python3
"""Self-validation of the concurrent stress stage E2: seeded concurrency mutants of
/repo/server/db.go, injected through the overlay (/repo untouched), each run against
tools/e2run.sh.   usage: e2mutants.py [name ...]   (env VERIF_SEED, E2_TIER=quick)"""
import json, os, subprocess, sys, tempfile, shutil

SRC = "/repo/server/db.go"

def revert(commit):
    def f(src, d):
        p = os.path.join(d, "server")
        os.makedirs(p)
        open(os.path.join(p, "db.go"), "w").write(src)
        diff = subprocess.run(["git", "-C", "/repo", "show", commit, "--", "server/db.go"], stdout=subprocess.PIPE, text=True).stdout
        subprocess.run(["patch", "-R", "-p1", "-s"], input=diff, text=True, cwd=d, check=True)
        return open(os.path.join(p, "db.go")).read()
    return f

def subst(*pairs):
    def f(src, d):
        for old, new in pairs:
            if src.count(old) != 1:
                raise SystemExit("pattern occurs %d times: %r" % (src.count(old), old[:80]))
            src = src.replace(old, new)
        return src
    return f

MUTANTS = {
    # the two concurrency defects repaired recently, re-introduced
    "refcount-after-publish": (revert("648ad35"), "C01 C17", "manager published before its reference count leaves the 'freed' marker (reverts 648ad35)"),
    "slowmap-shortcut": (revert("bed1479"), "C01 C17", "GetLockManager short cut 'slot count <= 1 means no slow-map key' (reverts bed1479)"),
    "duplicate-manager": (revert("97ab9b3"), "C01 C17", "slow-map creator ignores a manager being published in the fast slot (reverts 97ab9b3, found by E2)"),
    "remove-deletes-successor": (revert("91022a5"), "C17 C01", "RemoveLockManager deletes the slow-map entry by key (reverts 91022a5, found by E2)"),
    # drop a shard mutex around one critical section: the expiry sweep walks its wheel slot without the shard mutex
    "sweep-without-mutex": (subst(
        ("\tself.managerGlocks[glockIndex].HighPriorityLock()\n\tlock := expriedLocks[glockIndex].Pop()", "\tlock := expriedLocks[glockIndex].Pop()"),
        ("\tself.managerGlocks[glockIndex].HighPriorityUnlock()\n\n\tlock = doExpriedLocks.Pop()", "\n\tlock = doExpriedLocks.Pop()")),
        "C01 C03 C17", "checkTimeExpried pops / re-files / frees the records of its wheel slot without the shard mutex"),
    # reply before the record is unlinked: TIMEOUT is sent, then the waiter is tombstoned
    "timeout-reply-before-unlink": (subst(
        ("\tlockLocked := lock.locked\n\tlock.timeouted = true\n\tlockProtocol, lockCommand := lock.protocol, lock.command\n\n\tif lockLocked > 0 {\n\t\tlockManager.locked -= uint32(lockLocked)\n\t\tif lockCommand.Flag&protocol.LOCK_FLAG_CONTAINS_DATA != 0 {\n\t\t\tif lock.ackCount != 0xff {",
         "\tlockLocked := lock.locked\n\tlockProtocol, lockCommand := lock.protocol, lock.command\n\tlockManager.glock.Unlock()\n\tverifPoint(VP_TIMEOUT_UNLOCKED)\n\t_ = lockProtocol.ProcessLockResultCommandLocked(lockCommand, protocol.RESULT_TIMEOUT, uint16(lockManager.locked), lock.locked, lockManager.GetLockData())\n\tlockManager.glock.Lock()\n\tlock.timeouted = true\n\n\tif lockLocked > 0 {\n\t\tlockManager.locked -= uint32(lockLocked)\n\t\tif lockCommand.Flag&protocol.LOCK_FLAG_CONTAINS_DATA != 0 {\n\t\t\tif lock.ackCount != 0xff {"),
        ("\t_ = lockProtocol.ProcessLockResultCommandLocked(lockCommand, protocol.RESULT_TIMEOUT, uint16(lockManager.locked), lock.locked, lockManager.GetLockData())\n\tif lockLocked > 0 {\n\t\tself.wakeUpWaitLocks(lockManager, nil)",
         "\tif lockLocked > 0 {\n\t\tself.wakeUpWaitLocks(lockManager, nil)")),
        "C03 C01 C17", "doTimeOut answers TIMEOUT (mutex released) before it marks the queued record as finished"),
    # skip the wake-up under one interleaving: no wake-up pass when the unlock leaves other holders
    "skip-wakeup-when-still-held": (subst(
        ("\tverifPoint(VP_UNLOCK_PRE_WAKE)\n\tself.wakeUpWaitLocks(lockManager, serverProtocol)\n\treturn nil\n}",
         "\tverifPoint(VP_UNLOCK_PRE_WAKE)\n\tif lockManager.locked == 0 {\n\t\tself.wakeUpWaitLocks(lockManager, serverProtocol)\n\t}\n\treturn nil\n}")),
        "C01 C03 C17", "UnLock runs the wake-up pass only when the key became free (another holder left: waiters stay queued)"),
    # double free of a lock record: freed while one more structure still references it
    "record-freed-while-referenced": (subst(
        ("\t\tlockManager := lock.manager\n\t\tlock.refCount--\n\t\tif lock.refCount == 0 {\n\t\t\tlockManager.FreeLock(lock)\n\t\t\tif lockManager.refCount == 0 {\n\t\t\t\tself.RemoveLockManager(lockManager)\n\t\t\t}\n\t\t}\n\t\tlock = expriedLocks[glockIndex].Pop()",
         "\t\tlockManager := lock.manager\n\t\tlock.refCount--\n\t\tif lock.refCount <= 1 {\n\t\t\tlockManager.FreeLock(lock)\n\t\t\tif lockManager.refCount == 0 {\n\t\t\t\tself.RemoveLockManager(lockManager)\n\t\t\t}\n\t\t}\n\t\tlock = expriedLocks[glockIndex].Pop()")),
        "C17 C03 C01", "the expiry sweep frees a finished record while the time-out wheel / holder list still references it (second free follows)"),
    # the re-check 'the manager still owns the key' after taking the shard mutex is dropped
    "no-key-recheck": (subst(
        ("\tif lockManager.lockKey != command.LockKey {\n\t\tlockManager.glock.Unlock()\n\t\tverifPoint(VP_LOCK_RETRY)",
         "\tif false && lockManager.lockKey != command.LockKey {\n\t\tlockManager.glock.Unlock()\n\t\tverifPoint(VP_LOCK_RETRY)")),
        "C01 C17 C03", "Lock does not re-check that the manager it looked up still belongs to the key after taking the shard mutex"),
    # the grant from the queue does not mark the queued record as finished
    "wake-without-tombstone": (subst(
        ("\twaitLock.timeouted = true\n\tif waitLock.longWaitIndex > 0 {\n\t\tself.RemoveLongTimeOut(waitLock)\n\t}\n\n\tif waitLock.command.Expried > 0 {",
         "\tif waitLock.longWaitIndex > 0 {\n\t\tself.RemoveLongTimeOut(waitLock)\n\t}\n\n\tif waitLock.command.Expried > 0 {")),
        "C03 C17 C01", "wakeUpWaitLock grants a queued request without marking its record: the time-out sweep answers it a second time"),
}

def main():
    names = sys.argv[1:] or list(MUTANTS)
    tier = os.environ.get("E2_TIER", "quick")
    src = open(os.environ.get("E2_BASE_SRC", SRC)).read()  # E2_BASE_SRC: mutate a patched copy (proposed fix) instead of the tree
    for name in names:
        fn, props, what = MUTANTS[name]
        d = tempfile.mkdtemp(prefix="vfe2mut-", dir="/verif/.build")
        try:
            out = fn(src, d)
            f = os.path.join(d, "db.go")
            open(f, "w").write(out)
            ov = os.path.join(d, "ov.json")
            json.dump({"Replace": {SRC: f}}, open(ov, "w"))
            env = dict(os.environ, VERIF_MUTANT_OVERLAY=ov)
            r = subprocess.run(["/verif/tools/e2run.sh", tier] + props.split(), env=env, stdout=subprocess.PIPE, stderr=subprocess.STDOUT, text=True)
            print("== MUTANT %s: %s" % (name, what))
            for l in r.stdout.splitlines():
                if l.startswith(("E2-SUMMARY", "HARNESS-ERROR", "VERDICT")):
                    print("   " + l[:330])
            seen = set()
            for l in r.stdout.splitlines():
                if l.startswith("VIOLATION"):
                    cl = l.split("clause=")[1].split()[0]
                    if cl not in seen:
                        seen.add(cl)
                        print("   " + l[:420])
            sys.stdout.flush()
        finally:
            shutil.rmtree(d, ignore_errors=True)

main()
