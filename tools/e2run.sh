#!/bin/bash
# usage: e2run.sh [quick|thorough] [props...]   (env: VERIF_SEED, VERIF_MUTANT_OVERLAY, VERIF_SCALE, VERIF_REPLAY, E2_RACE=1)
# Builds the harness test binary the way /verif/check does (overlay, tags verif + vfe2) and runs TestVerif_E2
# (the concurrent stress stage E2 for C01, C03, C15, C17) from a scratch directory.
export GOFLAGS=-mod=mod GOPROXY=off GOSUMDB=off GOTOOLCHAIN=local
VERIF=/verif
REPO=${VERIF_REPO:-/repo}
TIER=${1:-quick}; shift
PROPS="$*"
B=$VERIF/.build
mkdir -p $B
OVL=$B/E2-overlay-$$.json
python3 - "$OVL" <<'P'
import glob, json, os, re, sys
rep = {}
for pkg in ("server", "protocol", "client"):
    for f in sorted(glob.glob("/verif/harness/%s/*.go" % pkg)):
        base = os.path.basename(f)
        if re.match(r"vfc\d\d", base):
            continue
        if not base.endswith("_test.go"):
            base = base[:-3] + "_test.go"
        rep[os.path.join(os.environ.get("VERIF_REPO", "/repo"), pkg, "zz_verif_" + base)] = f
extra = os.environ.get("VERIF_MUTANT_OVERLAY")
if extra:
    rep.update(json.load(open(extra))["Replace"])
json.dump({"Replace": rep}, open(sys.argv[1], "w"), indent=1)
P
BIN=$B/server.E2.$$.test
RACE=""
[ "$E2_RACE" = "1" ] && RACE="-race"
(cd $REPO && go test -tags "verif vfe2" -overlay $OVL -vet=off -c $RACE -o $BIN ./server/) || { echo "HARNESS-ERROR: build failed"; rm -f $OVL; exit 2; }
SCR=$(mktemp -d /tmp/slock-verif-E2-XXXXXX)
export VERIF_TIER=$TIER VERIF_DIR=$VERIF VERIF_SCRATCH=$SCR VERIF_SEED=${VERIF_SEED:-1} VERIF_E2_PROPS="$PROPS"
export VERIF_EVIDENCE=$B/mutant-out/E2-$$.json VERIF_REPLAYS=${VERIF_REPLAYS:-$B/mutant-out/replays-E2-$$}
(cd $SCR && $BIN -test.run '^TestVerif_E2$' -test.timeout 0)
RC=$?
rm -rf $SCR $BIN $OVL
exit $RC
