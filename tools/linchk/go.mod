module verif/linchk

go 1.21

require github.com/anishathalye/porcupine v1.3.0
