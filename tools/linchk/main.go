// linchk: stand-alone linearizability checker (porcupine v1.3.0) for the
// histories recorded by the concurrent stress engine E2 of the slock
// verification harness.
//
// usage: linchk <in.json> <out.json>
//
// It lives in a module of its own because importing porcupine into package
// server would change /repo/go.mod. Build (offline, module cache only):
//
//	cd /verif/tools/linchk && GOFLAGS=-mod=mod GOPROXY=off GOSUMDB=off go build -o /verif/.build/linchk .
//
// Input: partitions of a history (one per key and round), each with a model
// name and operations {id, client, call, ret, in, out}; ret < 0 = the reply
// never came (the operation stays open to the end of the history and may or
// may not have taken effect).
//
// Models (sequential specifications, nondeterministic only for open operations):
//
//   - "lock": a counting lock. State = holders in grant order (LockId, depth,
//     Count). LOCK -> ok is legal iff the request is admissible as a new holder
//     (no holds, or Count != 0 and total depth <= oldest holder's Count and
//     <= the request's Count) or re-enters its own hold (depth <= Rcount);
//     UNLOCK -> ok iff the LockId holds (one level if Rcount > 0 and depth > 1,
//     else the whole hold); UNLOCK -> notheld iff the LockId does not hold;
//     EXPIRE (the EXPRIED notice) iff the LockId holds; PROBE (LOCK with
//     Expried 0) -> ok iff it would be granted, no effect. Every other outcome
//     (time-out, LOCKED_ERROR ...) is unconstrained and has no effect - a
//     request can be refused for queue-order reasons the model does not carry.
//
//   - "register": the value attached to a held key. Every successful request
//     returns the value from immediately before its operation (requests
//     without a value operation are reads); refused requests leave it unchanged.
package main

import (
	"encoding/json"
	"fmt"
	"os"
	"sort"
	"strconv"
	"strings"
	"time"

	"github.com/anishathalye/porcupine"
)

type opIn struct {
	Op     string `json:"op"`
	Lid    int    `json:"lid"`
	Count  int    `json:"count"`
	Rcount int    `json:"rcount"`
	Arg    string `json:"arg,omitempty"`
	Num    int64  `json:"num,omitempty"`
}

type opOut struct {
	Res  string `json:"res"` // ok | notheld | other | open
	Prev string `json:"prev,omitempty"`
}

type op struct {
	Id     uint64 `json:"id"`
	Client int    `json:"client"`
	Call   int64  `json:"call"`
	Ret    int64  `json:"ret"`
	In     opIn   `json:"in"`
	Out    opOut  `json:"out"`
}

type partition struct {
	Name  string `json:"name"`
	Model string `json:"model"`
	Init  string `json:"init,omitempty"`
	Ops   []op   `json:"ops"`
}

type inFile struct {
	TimeoutS   int         `json:"timeout_s"`
	Partitions []partition `json:"partitions"`
}

type result struct {
	Name   string   `json:"name"`
	Model  string   `json:"model"`
	Result string   `json:"result"` // ok | illegal | unknown
	Ops    int      `json:"ops"`
	Open   int      `json:"open"`
	Ms     int64    `json:"ms"`
	Stuck  []uint64 `json:"stuck,omitempty"`  // ids of the earliest operations no linearization could place
	Placed int      `json:"placed,omitempty"` // length of the longest partial linearization
}

type outFile struct {
	Results []result `json:"results"`
}

// ---------------------------------------------------------------- lock model

type holder struct {
	lid, depth, count int
}

func parseHolders(s string) []holder {
	if s == "" {
		return nil
	}
	parts := strings.Split(s, "|")
	hs := make([]holder, 0, len(parts))
	for _, p := range parts {
		f := strings.Split(p, ".")
		a, _ := strconv.Atoi(f[0])
		b, _ := strconv.Atoi(f[1])
		c, _ := strconv.Atoi(f[2])
		hs = append(hs, holder{a, b, c})
	}
	return hs
}

func fmtHolders(hs []holder) string {
	var sb strings.Builder
	for i, h := range hs {
		if i > 0 {
			sb.WriteByte('|')
		}
		sb.WriteString(strconv.Itoa(h.lid))
		sb.WriteByte('.')
		sb.WriteString(strconv.Itoa(h.depth))
		sb.WriteByte('.')
		sb.WriteString(strconv.Itoa(h.count))
	}
	return sb.String()
}

func totalDepth(hs []holder) int {
	n := 0
	for _, h := range hs {
		n += h.depth
	}
	return n
}

func admissible(hs []holder, count int) bool {
	d := totalDepth(hs)
	if d == 0 {
		return true
	}
	if count == 0 {
		return false
	}
	if d >= 0xffff {
		return hs[0].count == 0xffff && count == 0xffff && d < 0x7fffffff
	}
	return d <= hs[0].count && d <= count
}

func findHolder(hs []holder, lid int) int {
	for i, h := range hs {
		if h.lid == lid {
			return i
		}
	}
	return -1
}

// lockGrant returns the state after granting the request, if it can be granted.
func lockGrant(hs []holder, in opIn) (string, bool) {
	i := findHolder(hs, in.Lid)
	if i >= 0 {
		if hs[i].depth < 0xff && hs[i].depth <= in.Rcount {
			n := append([]holder(nil), hs...)
			n[i].depth++
			n[i].count = in.Count
			return fmtHolders(n), true
		}
		return "", false
	}
	if admissible(hs, in.Count) {
		n := append(append([]holder(nil), hs...), holder{in.Lid, 1, in.Count})
		return fmtHolders(n), true
	}
	return "", false
}

func lockRelease(hs []holder, in opIn, whole bool) (string, bool) {
	i := findHolder(hs, in.Lid)
	if i < 0 {
		return "", false
	}
	n := append([]holder(nil), hs...)
	if !whole && n[i].depth > 1 && in.Rcount > 0 {
		n[i].depth--
		return fmtHolders(n), true
	}
	n = append(n[:i], n[i+1:]...)
	return fmtHolders(n), true
}

func lockStep(state interface{}, input interface{}, output interface{}) []interface{} {
	st := state.(string)
	in := input.(opIn)
	out := output.(opOut)
	hs := parseHolders(st)
	same := []interface{}{st}
	switch in.Op {
	case "lock":
		switch out.Res {
		case "ok":
			if ns, ok := lockGrant(hs, in); ok {
				return []interface{}{ns}
			}
			return nil
		case "open":
			if ns, ok := lockGrant(hs, in); ok && ns != st {
				return []interface{}{st, ns}
			}
			return same
		}
		return same
	case "probe":
		if out.Res == "ok" {
			if _, ok := lockGrant(hs, in); ok {
				return same
			}
			return nil
		}
		return same
	case "unlock":
		switch out.Res {
		case "ok":
			if ns, ok := lockRelease(hs, in, false); ok {
				return []interface{}{ns}
			}
			return nil
		case "notheld":
			if findHolder(hs, in.Lid) < 0 {
				return same
			}
			return nil
		case "open":
			if ns, ok := lockRelease(hs, in, false); ok {
				return []interface{}{st, ns}
			}
			return same
		}
		return same
	case "expire":
		if ns, ok := lockRelease(hs, in, true); ok {
			return []interface{}{ns}
		}
		return nil
	}
	return same
}

// ---------------------------------------------------------------- register model

// value encoding: "A" absent, "B:<bytes>" byte string, "N:<decimal>" number.
func regApply(st string, in opIn) string {
	switch in.Op {
	case "set":
		return "B:" + in.Arg
	case "unset":
		return "A"
	case "append":
		if st == "A" {
			return "B:" + in.Arg
		}
		if strings.HasPrefix(st, "B:") {
			return st + in.Arg
		}
		return st
	case "incr":
		if st == "A" {
			return "N:" + strconv.FormatInt(in.Num, 10)
		}
		if strings.HasPrefix(st, "N:") {
			v, _ := strconv.ParseInt(st[2:], 10, 64)
			return "N:" + strconv.FormatInt(v+in.Num, 10)
		}
		return st
	case "shift":
		if strings.HasPrefix(st, "B:") && in.Num > 0 {
			b := st[2:]
			n := int(in.Num)
			if n > len(b) {
				n = len(b)
			}
			return "B:" + b[n:]
		}
		return st
	}
	return st
}

func regStep(state interface{}, input interface{}, output interface{}) []interface{} {
	st := state.(string)
	in := input.(opIn)
	out := output.(opOut)
	switch out.Res {
	case "ok":
		if out.Prev != st {
			return nil
		}
		return []interface{}{regApply(st, in)}
	case "open":
		ns := regApply(st, in)
		if ns != st {
			return []interface{}{st, ns}
		}
	}
	return []interface{}{st}
}

// ---------------------------------------------------------------- driver

func describe(input interface{}, output interface{}) string {
	in := input.(opIn)
	out := output.(opOut)
	return fmt.Sprintf("%s(L%d c=%d rc=%d %s%d) -> %s %s", in.Op, in.Lid, in.Count, in.Rcount, in.Arg, in.Num, out.Res, out.Prev)
}

func check(p *partition, timeout time.Duration) result {
	r := result{Name: p.Name, Model: p.Model, Ops: len(p.Ops)}
	var maxTs int64
	for _, o := range p.Ops {
		if o.Call > maxTs {
			maxTs = o.Call
		}
		if o.Ret > maxTs {
			maxTs = o.Ret
		}
	}
	init := p.Init
	nm := porcupine.NondeterministicModel{
		Equal:             func(a, b interface{}) bool { return a.(string) == b.(string) },
		DescribeOperation: describe,
		DescribeState:     func(s interface{}) string { return s.(string) },
	}
	switch p.Model {
	case "lock":
		nm.Init = func() []interface{} { return []interface{}{init} }
		nm.Step = lockStep
	case "register":
		if init == "" {
			init = "A"
		}
		nm.Init = func() []interface{} { return []interface{}{init} }
		nm.Step = regStep
	default:
		r.Result = "unknown"
		return r
	}
	ops := make([]porcupine.Operation, 0, len(p.Ops))
	for _, o := range p.Ops {
		ret := o.Ret
		out := o.Out
		if ret < 0 {
			ret = maxTs + 1
			out = opOut{Res: "open"}
			r.Open++
		}
		ops = append(ops, porcupine.Operation{ClientId: o.Client, Input: o.In, Call: o.Call, Output: out, Return: ret, Metadata: o.Id})
	}
	model := nm.ToModel()
	t0 := time.Now()
	res := porcupine.CheckOperationsTimeout(model, ops, timeout)
	r.Ms = time.Since(t0).Milliseconds()
	switch res {
	case porcupine.Ok:
		r.Result = "ok"
	case porcupine.Illegal:
		r.Result = "illegal"
		// second pass for a witness: the longest partial linearization and the
		// earliest operations outside it
		vr, info := porcupine.CheckOperationsVerbose(model, ops, 15*time.Second)
		if vr == porcupine.Illegal {
			best := []int{}
			for _, part := range info.PartialLinearizations() {
				for _, lin := range part {
					if len(lin) > len(best) {
						best = lin
					}
				}
			}
			r.Placed = len(best)
			in := map[int]bool{}
			for _, i := range best {
				in[i] = true
			}
			type cand struct {
				call int64
				id   uint64
			}
			var cs []cand
			for i, o := range ops {
				if !in[i] {
					cs = append(cs, cand{o.Call, o.Metadata.(uint64)})
				}
			}
			sort.Slice(cs, func(i, j int) bool { return cs[i].call < cs[j].call })
			for i := 0; i < len(cs) && i < 6; i++ {
				r.Stuck = append(r.Stuck, cs[i].id)
			}
		}
	default:
		r.Result = "unknown"
	}
	return r
}

func main() {
	if len(os.Args) != 3 {
		fmt.Fprintln(os.Stderr, "usage: linchk <in.json> <out.json>")
		os.Exit(2)
	}
	b, err := os.ReadFile(os.Args[1])
	if err != nil {
		fmt.Fprintln(os.Stderr, "linchk:", err)
		os.Exit(2)
	}
	var in inFile
	if err := json.Unmarshal(b, &in); err != nil {
		fmt.Fprintln(os.Stderr, "linchk: bad input:", err)
		os.Exit(2)
	}
	if in.TimeoutS <= 0 {
		in.TimeoutS = 60
	}
	// the time limit is per history file: partitions share it
	deadline := time.Now().Add(time.Duration(in.TimeoutS) * time.Second)
	out := outFile{}
	for i := range in.Partitions {
		left := time.Until(deadline)
		if left < time.Second {
			left = time.Second
		}
		out.Results = append(out.Results, check(&in.Partitions[i], left))
	}
	ob, _ := json.Marshal(out)
	if err := os.WriteFile(os.Args[2], ob, 0644); err != nil {
		fmt.Fprintln(os.Stderr, "linchk:", err)
		os.Exit(2)
	}
}
