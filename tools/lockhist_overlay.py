#!/usr/bin/env python3
# Debugging aid (not a registered check): builds instrumented copies of server/db.go, lock.go and replication.go
# in /tmp/lockhist in which every Lock record keeps a history of its reference-count changes, queue insertions,
# log pushes and acknowledgement registrations (with caller file:line), and dumps that history to
# /tmp/lockhist/uaf.log when a freed record is met again (holder list, timer queues, acknowledgement table).
# Use:  python3 tools/lockhist_overlay.py
#       VERIF_MUTANT_OVERLAY=/tmp/lockhist/ov.json ./check C13 thorough --replay <crash replay>
# This is how the use-after-free family of C13 was root-caused (DESIGN 8.9). /repo is not touched.
import os
os.makedirs('/tmp/lockhist', exist_ok=True)
import re,shutil
for f in ['db.go','lock.go','replication.go']: shutil.copy('/repo/server/'+f,'/tmp/lockhist/'+f)
s=open('/tmp/lockhist/lock.go').read()
s=s.replace('''	aofTime             uint8
	isAof               bool
}

func NewLock(''','''	aofTime             uint8
	isAof               bool
	hist                []string
}

func vfHist(lock *Lock, what string) {
	if lock == nil {
		return
	}
	_, file, line, _ := runtime.Caller(1)
	if i := strings.LastIndex(file, "/"); i >= 0 {
		file = file[i+1:]
	}
	_, file2, line2, _ := runtime.Caller(2)
	if i := strings.LastIndex(file2, "/"); i >= 0 {
		file2 = file2[i+1:]
	}
	rid := ""
	if lock.command != nil {
		rid = fmt.Sprintf("%x", lock.command.RequestId[:4])
	}
	lock.hist = append(lock.hist, fmt.Sprintf("%s %s:%d<-%s:%d ref=%d expried=%v timeouted=%v lwi=%d locked=%d rid=%s ack=%d isAof=%v aofTime=%d", what, file, line, file2, line2, lock.refCount, lock.expried, lock.timeouted, lock.longWaitIndex, lock.locked, rid, lock.ackCount, lock.isAof, lock.aofTime))
	if len(lock.hist) > 80 {
		lock.hist = lock.hist[len(lock.hist)-80:]
	}
}

func vfDump(lock *Lock, where string) {
	f, _ := os.OpenFile("/tmp/lockhist/uaf.log", os.O_CREATE|os.O_APPEND|os.O_WRONLY, 0644)
	defer f.Close()
	fmt.Fprintf(f, "VFUAF at %s lock=%p\\n", where, lock)
	for _, h := range lock.hist {
		fmt.Fprintf(f, "VFUAF   %s\\n", h)
	}
}

func NewLock(''',1)
s=s.replace("0, 1, 1, 0, 0, 0xff, true, true, 0, false}","0, 1, 1, 0, 0, 0xff, true, true, 0, false, nil}",1)
s=s.replace('import (\n\t"bytes"\n','import (\n\t"bytes"\n\t"fmt"\n\t"os"\n\t"runtime"\n\t"strings"\n',1)
s=s.replace('''	atomic.AddUint32(&self.refCount, 0xffffffff)
	lock.manager = nil''','''	atomic.AddUint32(&self.refCount, 0xffffffff)
	vfHist(lock, "FREE")
	lock.manager = nil''',1)
s=s.replace('''	lock.longWaitIndex = 0
	atomic.AddUint32(&self.refCount, 1)
	return lock''','''	lock.longWaitIndex = 0
	atomic.AddUint32(&self.refCount, 1)
	vfHist(lock, "NEW")
	return lock''',1)
def instr(s):
    out=[]
    for line in s.split('\n'):
        out.append(line)
        m=re.match(r'^(\s*)([\w\.]+)\.refCount\s*(\+\+|--|\+=|-=)',line)
        if m and 'atomic' not in line:
            var=m.group(2)
            if var in('self','lockManager','manager') or var.endswith('anager'): continue
            out.append('%svfHist(%s, "ref")'%(m.group(1),var))
    return '\n'.join(out)
s=instr(s)
s=s.replace('''func (self *LockManager) GetLockedLock(command *protocol.LockCommand) *Lock {
	if self.currentLock.command.LockId''','''func (self *LockManager) GetLockedLock(command *protocol.LockCommand) *Lock {
	if self.currentLock.command == nil {
		vfDump(self.currentLock, "GetLockedLock currentLock.command nil")
	}
	if self.currentLock.command.LockId''',1)
for fn in ['AddLock','RemoveLock']:
    pat='func (self *LockManager) %s(lock *Lock) *Lock {\n'%fn
    assert pat in s, fn
    s=s.replace(pat,pat+'\tvfHist(lock, "%s")\n'%fn,1)
s=s.replace('''func (self *LockManager) PushLockAof(lock *Lock, aofFlag uint16) error {
''','''func (self *LockManager) PushLockAof(lock *Lock, aofFlag uint16) error {
	vfHist(lock, fmt.Sprintf("PushLockAof(flag=%x tf=%x ef=%x)", aofFlag, lock.command.TimeoutFlag, lock.command.ExpriedFlag))
''',1)
s=s.replace('''func (self *LockManager) PushUnLockAof(dbId uint8, lock *Lock, lockCommand *protocol.LockCommand, unLockCommand *protocol.LockCommand, isAof bool, aofFlag uint16) error {
''','''func (self *LockManager) PushUnLockAof(dbId uint8, lock *Lock, lockCommand *protocol.LockCommand, unLockCommand *protocol.LockCommand, isAof bool, aofFlag uint16) error {
	vfHist(lock, fmt.Sprintf("PushUnLockAof(flag=%x tf=%x)", aofFlag, lockCommand.TimeoutFlag))
''',1)
open('/tmp/lockhist/lock.go','w').write(s)
d=open('/tmp/lockhist/db.go').read()
d=instr(d)
d=d.replace('''			if !lock.expried {
				lock.expriedTime = lock.startTime + int64(lock.command.Expried/1000) + 1''','''			if !lock.expried {
				if lock.command == nil {
					vfDump(lock, "checkMillisecondExpried command nil")
				}
				lock.expriedTime = lock.startTime + int64(lock.command.Expried/1000) + 1''',1)
for fn in ['AddExpried','AddMillisecondExpried','AddTimeOut','AddMillisecondTimeOut']:
    pat='func (self *LockDB) %s(lock *Lock) {\n'%fn
    assert pat in d, fn
    d=d.replace(pat,pat+'\tif lock.manager == nil {\n\t\tvfDump(lock, "%s of freed lock")\n\t}\n\tvfHist(lock, "%s")\n'%(fn,fn),1)
for fn in ['doExpried','doTimeOut','DoAckLock']:
    m=re.search(r'func \(self \*LockDB\) %s\(lock \*Lock[^\n]*\{\n'%fn,d); sig=m.group(0)
    d=d.replace(sig,sig+'\tif lock.manager == nil {\n\t\tvfDump(lock, "%s of freed lock")\n\t}\n\tvfHist(lock, "%s")\n'%(fn,fn),1)
open('/tmp/lockhist/db.go','w').write(d)
r=open('/tmp/lockhist/replication.go').read()
r=r.replace('''	aofId := aofLock.GetAofId()
	self.commandAofs[glockIndex][lock.command.RequestId] = aofId
	self.aofLocks[glockIndex][aofId] = lock
	lock.ackCount = self.ackCount''','''	aofId := aofLock.GetAofId()
	self.commandAofs[glockIndex][lock.command.RequestId] = aofId
	self.aofLocks[glockIndex][aofId] = lock
	vfHist(lock, fmt.Sprintf("REGISTER aofFlag=%x aofId=%x", aofLock.AofFlag, aofId[:8]))
	lock.ackCount = self.ackCount''',1)
r=r.replace('''		lockManager.glock.Unlock()
		self.ackGlocks[glockIndex].Unlock()
		lockManager.lockDb.DoAckLock(lock, false)
		return nil
	}

	aofId := aofLock.GetAofId()''','''		lockManager.glock.Unlock()
		self.ackGlocks[glockIndex].Unlock()
		vfHist(lock, fmt.Sprintf("NOREGISTER aofFlag=%x registered=%v", aofLock.AofFlag, registered))
		lockManager.lockDb.DoAckLock(lock, false)
		return nil
	}

	aofId := aofLock.GetAofId()''',1)
assert 'vfHist(lock, fmt.Sprintf("REGISTER' in r and 'NOREGISTER' in r
for fn in ['ProcessLeaderAcked','ProcessLeaderAofed']:
    pat='''func (self *ReplicationAckDB) %s(glockIndex uint16, aofLock *AofLock) error {
	aofId := aofLock.GetAofId()
	self.ackGlocks[glockIndex].Lock()
	if lock, ok := self.aofLocks[glockIndex][aofId]; ok {
'''%fn
    assert pat in r
    r=r.replace(pat,pat+'\t\tif lock.command == nil {\n\t\t\tvfDump(lock, "%s registered lock is freed")\n\t\t}\n\t\tvfHist(lock, fmt.Sprintf("%s aofId=%%x result=%%d", aofId[:8], aofLock.Result))\n'%(fn,fn),1)
if '"fmt"' not in r.split(')')[0]:
    r=r.replace('import (\n','import (\n\t"fmt"\n',1)
open('/tmp/lockhist/replication.go','w').write(r)
open('/tmp/lockhist/ov.json','w').write('{"Replace":{"/repo/server/db.go":"/tmp/lockhist/db.go","/repo/server/lock.go":"/tmp/lockhist/lock.go","/repo/server/replication.go":"/tmp/lockhist/replication.go"}}')
print("overlay written: /tmp/lockhist/ov.json")
