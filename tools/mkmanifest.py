#!/usr/bin/env python3
"""Writes /verif/MANIFEST.json from the table below and validates it."""
import json, os, sys
V = os.path.dirname(os.path.dirname(os.path.abspath(__file__)))

E1 = "E1 virtual-clock sequential engine"
CHECKS = {
 "C01": dict(cat="exploration", tech="trace monitor over recorded replies (shadow table, admission predicate) + in-package census, virtual clock, injected interleavings",
    text="Runs the real LockDB on a virtual clock under thousands of PRNG scripts of the core command subset; every SUCCED that creates a new holder is checked against the admission rule computed from what clients were told, and the server's own holder lists are compared with that shadow after every step. Operations are injected at yield points between critical sections (manager lookup vs lock, unlock vs wake-up, inside the wake-up loop, sweeper entry), so racy orders are constructed rather than hoped for. Held on the executions produced; not a proof.",
    note="Trusts: the harness shadow (updated only from replies), the yield points being outside critical sections, sequential E1 schedule granularity = whole critical sections. >=65535 simultaneous holds and millisecond timers not covered.", ref="3/C01"),
 "C02": dict(cat="exploration", tech="trace monitor over recorded replies (ownership / depth rules) + census", 
    text="Same engine as C01 with a generator biased to unlocks of held, queued, expired, foreign and never-existing LockIds, cancel-wait, unlock-first, re-entrant re-locks and partial unlocks, including 130-300 simultaneous holders so the holder list crosses its inline->map representation switch. Each unlock/re-lock reply is checked against the exact ownership and depth rules of the statement; refusals must leave the census unchanged.",
    note="Unlock-first falling back to the oldest hold takes Rcount from the hold's own request: either 'one depth' or 'all' is accepted there. A re-lock with Expried=0 is a query (depth unchanged).", ref="3/C02"),
 "C03": dict(cat="exploration", tech="reply ledger over recorded histories (exactly-once, routing, EXPRIED terms chain)",
    text="Every submitted request is entered in a ledger; at quiescence after a drain phase each must have exactly one terminal reply on its own connection, at most one EXPRIED under a RequestId of the hold's terms chain, never a foreign RequestId. Sweeper/unlock/cancel races are constructed by injection at the sweeper-entry and wake-up yield points.",
    note="MemWaiter (in-memory) connections in E1; binary and text front-ends are covered by the C18/C13 engines.", ref="3/C03"),
 "C04": dict(cat="exploration", tech="trace monitor: specification queue vs shadow at every quiescent step, with cause attribution",
    text="After every top-level step the head of the specification queue (priority desc, arrival asc) must not be admissible w.r.t. the shadow; every grant from the queue must not overtake a live request of equal or higher priority. Queues of 9-300 entries force the inline -> ring -> priority-ring migrations. Each violation is attributed to the event class that made the head admissible.",
    note="Keys carrying a wait-when-unlocked (0x0200) waiter are excluded from the quiescent clause. Two genuine defects were found and fixed (see known_findings.json).", ref="3/C04"),
 "C05": dict(cat="exploration", tech="trace monitor: integer-tick window check of TIMEOUT replies on a virtual clock",
    text="A request queued at tick n with timeout T must be answered TIMEOUT at a tick in [n+T+1, n+T+2] unless granted/cancelled first, never again afterwards; T=0 must answer at once. Ticks are +1 (5% +2) so both bounds are tight; waits up to 65535 s / 300 min drive the long-wait table path.",
    note="Millisecond time-outs are driven by wall-clock goroutines and are not decided here.", ref="3/C05"),
 "C06": dict(cat="exploration", tech="trace monitor: deadline-window check of EXPRIED notices on a virtual clock + census",
    text="A hold whose terms were last set at tick g with expiry E must be ended at a tick in [g+E+1, g+E+2] (within +10 once a terms change shortened it; either window for an ignorable update), never when unlimited; the notice must arrive on the owner's connection, the hold must leave the census and waiters be served. Unlocks, re-locks and updates are injected at the sweeper-entry yield point. One genuine race was found and fixed.",
    note="Leader only; millisecond expiries not decided here.", ref="3/C06"),
 "C16": dict(cat="fault_enumeration", tech="fault enumeration over crash images taken at the hook points of the log compaction (every file-system mutation, rotation close/open, end), compaction goroutine driven step by step and parked while operations continue; metamorphic oracle: state recovered from the image vs state recovered from the compaction's input files (+ current files), cross-checked with the running instance's own state",
    text="96 (quick) / 6 000 (thorough) PRNG histories with a rotation threshold of 5-24 records, so that a compaction (inputs: rewrite file + 1-4 append files) runs every few operations, triggered by the threshold, by the admin path (RewriteAofFile under the log mutex, as BGREWRITEAOF) and at start-up. The compaction goroutine is released between two operations, a directory image is taken at every hook point it passes, and at a PRNG point it is parked while 0-4 further operations append to the current file, after which a second image is taken. Up to 48 images per history are recovered by fresh instances at the virtual time of the image and compared, hold by hold and value by value, with the recovery of the reference image; a difference counts unless the running instance's own state at that moment accounts for it. The expected crash-unsafe ordering (inputs removed before the rename; value file renamed after the record file) and two further defect classes are recorded as open known findings by crash point / record shape; other differences are violations.",
    note="Copying the directory while the goroutine stands at a hook and no operation is in flight means an image never contains a torn write (C08). Differences between image and reference that the running instance's state explains are counted, not judged (replay is not an exact inverse of the history: C07's known findings).", ref="3/C16"),
 "C17": dict(cat="exploration", tech="invariant hooks: reply counts vs shadow, STATE counters vs census, reachability/refcount audit under the shard mutexes, zero-after-drain",
    text="LCount/LRCount of every reply and the STATE counters after every step are compared with the shadow and with a census walked under the code's own shard mutexes (holder lists, wait queues, all wheel slots, long tables, free pools, reference counts); after a drain phase everything must be zero and no finished record reachable. Server ERROR log lines (internal inconsistency reports) are captured and count as violations.",
    note="Counts are compared where they are determinate (sequential engine).", ref="3/C17"),
 "C13": dict(cat="exploration", tech="crash monitor + canary connection over generated hostile byte streams, child process per batch (inputs logged before sending)",
    text="20 000 (quick) / 2 000 000 (thorough) PRNG byte streams from four generators (structurally valid frames of every command type with arbitrary fields and arbitrary / inconsistent value frames incl. every length 0..64, nested pipelines and executes; every registered text command with 0-8 dictionary/numeric/binary arguments; mutated streams; random streams) are delivered whole, 2-way split or k-way split to the real Server.handle over in-memory connections. The oracle is: the server process stays alive and a canary binary + text connection opened before the batch keeps getting exactly the expected replies. A crash is attributed to the logged input and classified by top repository frame + panic class. Eight crash classes found on the original tree were repaired (see known_findings.json).",
    note="SHUTDOWN, FLUSHDB/FLUSHALL, SLAVEOF, REPLSET, CONFIG SET, CLIENT KILL are never sent (they stop / reconfigure the node or kill connections by design). net.Pipe connections; canary watchdog 20 s wall time.", ref="3/C13"),
 "C14": dict(cat="exploration", tech="differential / round-trip monitor over generated frames, argument lists and every chunking class, against an independent field-offset table and the real server front-ends",
    text="50 000 (quick) / 5 000 000 (thorough) PRNG cases over: encode->decode->encode of all 12 command types and their results against an independent README offset table (every field, CALL names 0..38 bytes, value frames with properties); decode->encode of arbitrary 64-byte inputs (defined bytes compared); TextParser request/response streams of 1-3 commands (binary-safe, empty arguments, up to 64 KiB) under whole / every-edge / random k-way chunkings and BuildRequest/BuildResponse round trips; the same LOCK/UNLOCK sent as text and as binary frame to the real server (effect read from the census, result fields compared; keys/ids of length 0..64 against an independent normaliser); the server's hand-inlined lock decoder / result encoder vs the protocol package; a text rendering for every result code. Four defects repaired (see known_findings.json).",
    note="Request lists have >=1 element (a command name): the empty list '*0' carries no command and is rejected by the parser. The protocol sniffing of the first 64 bytes of a connection (first read shorter than 64 bytes -> text) is not part of the statement; it is counted in the evidence, not judged.", ref="3/C14"),
 "C15": dict(cat="exploration", tech="reference-model monitor: sequential value interpreter vs the value frames carried by every reply (E1 virtual-clock engine)",
    text="On the C01 engine, 70% of the lock / re-lock / update / unlock requests of several LockIds of a key carry a type-consistent value operation (SET, UNSET, INCR incl. overflow, APPEND, SHIFT and POP beyond length, PUSH, PIPELINE, with and without property headers); every reply's value frame must equal the value a sequential reference interpreter computed before the operation, refused requests must leave it unchanged, show-queries observe it in between. One defect repaired (SHIFT beyond length crashed), one recorded as open known finding (multi-operation PIPELINE re-bases).",
    note="Type-consistent sequences only; property contents not compared; the value of a key that is not held is outside the property. Redis-style text commands are not yet covered by this check.", ref="3/C15"),
 "C18": dict(cat="exploration", tech="observer connection + in-package census over generated connection lifetimes (virtual clock, event-based waits)",
    text="1 500 (quick) / 50 000 (thorough) PRNG connection lifetimes through the real Server.handle: a binary (with/without INIT) or text subject registers 0-7 WILL locks that APPEND distinct letters to one key (so once / in order is read off the value; re-entrant so a double execution shows as depth 2) and optionally a WILL unlock, takes a hold, leaves a queued request and ends by client close / protocol error / QUIT before or after the queued request is granted or timed out, with or without a reconnect under the same client id. An observer connection and the census decide: no will effect before the end, exact effect after it, holds survive until expiry, queued requests end, late replies reach the reconnected client, nobody receives a foreign RequestId, everything is reclaimed after a drain. Two defects of the text protocol's WILL handling were repaired.",
    note="Server-side close is produced with QUIT; waits are on events with a 20 s watchdog whose firing is inconclusive.", ref="3/C18"),
 "C20": dict(cat="exploration", tech="model-based differential monitor: every internal queue driven through its production call patterns against a slice / stable-priority-queue model",
    text="5 000 (quick) / 500 000 (thorough) PRNG operation sequences over LockQueue / LockCommandQueue / LockManagerQueue (all small constructor triples and the production ones), the per-key holder queue (through LockManager.AddLock/RemoveLock/GetLockedLock), the wait queue and (priority) ring queues (through AddWaitLock/GetWaitLock), the long-wait queues (through LockDB.AddTimeOut/AddExpried/RemoveLong*/the sweeper's drain) and the free pools; every returned element, Len, Head, Tail, MaxPriority and the iterated content are compared with a plain model; counters record node-boundary crossings, growths, resizes, representation switches and restructures with holes actually taken. One defect repaired (long-wait queue restructure).",
    note="Operations are only generated in states production can reach (Shrink is never called in production and is not generated; Rellac only on an empty queue; Reset of holder/wait queues only when empty); restrictions are listed in the evidence assumptions.", ref="3/C20"),
 "C07": dict(cat="exploration", tech="differential monitor over in-process restarts on a virtual clock: client-side history (shadow) + in-package census of the stopped instance vs census of a fresh instance started on the same directory",
    text="600 (quick) / 30 000 (thorough) PRNG histories (locks, re-locks, updates, unlocks, expiries, time-outs, value operations, persistence flags; shards 1-8, persistence delay 0-3 s, aof buffer 64-4096 bytes, rotation threshold 6 records..8 MiB so that the history spreads over several append files and a rewrite file) are stopped at a quiescent point and restarted on the same directory after an outage of 0-3 virtual seconds; a second (25%: third) workload in a fresh key space and restart follow. Oracle: every hold that counts as persisted from what the clients were told (persist-immediately flag / zero delay, or older than the first sweeper visit after the delay) and is further than its tolerance from its deadline is held again with the same depth, Count, Rcount, a deadline within one unit of its granularity + 1 s (never later) and a value the key had since that hold was taken; never-persist holds are not restored; nothing is held that was not held at the stop; holds restored by one restart survive the next. Compactions are run between two steps; every 2nd/3rd wake-up of a log channel goroutine is delayed to widen the flush-barrier window. Three defects repaired, three recorded as open known findings.",
    note="In-process restart (instance stopped: log flushed, compactions finished, goroutines ended). Virtual clock one hour ahead of the wall clock, so the loader's wall-clock filter never applies: a hold whose deadline falls into the outage is loaded with remaining time 0. Fast-key table >= 256 slots (findings/fastkey-race). Values of keys that were unheld in between are not compared.", ref="3/C07"),
 "C08": dict(cat="fault_enumeration", tech="fault enumeration over crash images of the log (byte truncations of the newest append file and its value file) with a metamorphic oracle: state recovered from the image vs states recovered from the whole-record prefixes; second workload + second restart under the C07 oracle",
    text="96 (quick) / 6 000 (thorough) PRNG histories, each with about 100-150 crash images of its newest append file: header cuts 0..11 bytes, all 63 residues of the last record, a third of the residues of the two records before it, PRNG earlier records, complete records whose value is missing / cut in the length field / cut in the body / short by one byte, record boundaries. Every image is recovered by a fresh instance at the same virtual time: the start must succeed and the snapshot must equal the snapshot recovered from a whole-record prefix ending at or before the cut. On 3 images per history a second workload runs on the recovered instance and a second restart must satisfy the C07 oracle (this is what catches records appended behind a torn tail). Five defect classes repaired by two fixes.",
    note="Syscall-boundary crashes inside one flush are represented by the value-file cuts (records reach the file before their values); partial writes of the record buffer are the torn-record images. The hook VP_AOF_FLUSH_MID is not used by this check.", ref="3/C08"),
 "C11": dict(cat="fault_enumeration", tech="trace monitor + log-file oracle on a stand-alone leader (acknowledgement = own log flush), faults injected at the acknowledgement handler and at the log file",
    text="On the E1 engine 45% of the lock requests carry the require-ack flag (fresh grants and grants from the wait queue). The monitors decide: SUCCED is reported only after a LOCK record with the require-ack flag for that key/LockId is present in the leader's log files (read at reply time); while the hold awaits acknowledgement other requests for the LockId are answered LOCK_ACK_WAITING and never succeed; a pending hold that times out, is cancelled or whose log write fails ends with exactly one error reply, leaves the census, its value change is undone (value oracle) and waiters are served; nothing leaks after the drain. The pre-emption orders are constructed by injecting ticks (wait time-out), unlock-first / cancel-wait and probes at the entry of the acknowledgement handler; AOF record handling is serialised with the script (hook around AofChannel.Handle), so every execution replays. In a tenth of the scripts the append file's descriptor is closed so that log writes fail, and in a tenth re-entrant re-locks carry the flag: both are open known findings identified by that history. Five defects were repaired.",
    note="Stand-alone leader only: follower acknowledgements (delayed / negative / lost), ack modes and leader demotion need the cluster engine and are not covered by this check. Value operations on require-ack requests are off by default (VERIF_C11_DATA=1).", ref="3/C11"),
}
NA = {}
ALL = ["C%02d" % i for i in range(1, 21)]

def main():
    checks = []
    for pid in ALL:
        if pid not in CHECKS:
            continue
        c = CHECKS[pid]
        checks.append({
            "property_id": pid,
            "quick_cmd": "./check %s quick" % pid,
            "thorough_cmd": "./check %s thorough" % pid,
            "evidence_file": "/verif/evidence/%s.json" % pid,
            "replay_cmd_template": "./check %s --replay {path}" % pid,
            "engine": c.get("engine", "harness"),
            "level_claimed": {"category": c["cat"], "text": c["text"], "design_ref": "DESIGN.md §" + c["ref"]},
            "level_note": c["note"],
            "technique": c["tech"],
        })
    na = [{"property_id": p, "reason": NA.get(p, "check not built yet in this revision of /verif (work in progress; see DESIGN.md §3 for the planned runtime monitor)")} for p in ALL if p not in CHECKS]
    m = {
        "version": 1,
        "setup_cmd": "./setup.sh",
        "hooks": {
            "guard": "verif",
            "enable": "go test -tags verif -overlay /verif/.build/overlay.json (harness sources under /verif/harness are mapped into the package as zz_verif_*_test.go)",
            "baseline_off_cmd": "cd /repo && export GOFLAGS=-mod=mod GOPROXY=off GOSUMDB=off GOTOOLCHAIN=local && go test -json -vet=off -count=1 -timeout 25m ./... ; rm -f /repo/server/append.aof.* /repo/server/rewrite.aof*",
            "source_commits": ["79c291c", "7454dda", "edb93de", "23f66f0", "905ad43"],
            "add_only": True,
        },
        "engines": [
            {"name": "harness", "path": "/verif/harness", "serves_properties": sorted(CHECKS.keys()), "kind_free_text": "in-package Go test harness injected with go test -overlay; virtual-clock engine, shadow/census/ledger monitors; child process per shard"},
        ],
        "checks": checks,
        "not_applicable": na,
        "notes": "Every check rebuilds the harness against /repo's working tree. Exit 0 held / 1 VIOLATION / 2 inconclusive. known_findings.json lists fixed and open findings.",
    }
    with open(os.path.join(V, "MANIFEST.json"), "w") as fh:
        json.dump(m, fh, indent=1)
    try:
        import jsonschema
        jsonschema.validate(m, json.load(open("/root/.vp/MANIFEST.schema.json")))
        print("MANIFEST.json valid:", len(checks), "checks,", len(na), "not_applicable")
    except ImportError:
        print("jsonschema not importable; written without validation")

if __name__ == "__main__":
    main()
