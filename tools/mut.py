#!/usr/bin/env python3
"""Self-validation helper: run checks against a seeded mutant of a repository
source file without touching /repo (go -overlay).
usage: mut.py <name> <repo-relative-file> <old> <new> <prop> [<prop>...]   (old must occur exactly once)
"""
import json, os, subprocess, sys, tempfile, shutil
def main():
    name, rel, old, new = sys.argv[1:5]
    props = sys.argv[5:]
    src = open(os.path.join("/repo", rel)).read()
    if src.count(old) != 1:
        print("MUT %s: pattern occurs %d times" % (name, src.count(old))); return 2
    d = tempfile.mkdtemp(prefix="vfmut-")
    try:
        f = os.path.join(d, os.path.basename(rel))
        open(f, "w").write(src.replace(old, new))
        ov = os.path.join(d, "ov.json")
        json.dump({"Replace": {os.path.join("/repo", rel): f}}, open(ov, "w"))
        env = dict(os.environ, VERIF_MUTANT_OVERLAY=ov)
        res = {}
        for p in props:
            r = subprocess.run(["/verif/check", p], env=env, stdout=subprocess.PIPE, stderr=subprocess.STDOUT, text=True)
            first = [l for l in r.stdout.splitlines() if l.startswith("VIOLATION")][:1]
            summ = [l for l in r.stdout.splitlines() if l.startswith("SUMMARY")][:1]
            res[p] = r.returncode
            print("MUT %-28s %s exit=%d %s %s" % (name, p, r.returncode, (summ or [""])[0][:110], (first or [""])[0][:220]))
            if r.returncode == 2:
                print(r.stdout[-1500:])
        return 0
    finally:
        shutil.rmtree(d, ignore_errors=True)
sys.exit(main())
