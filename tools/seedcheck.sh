#!/bin/bash
# usage: seedcheck.sh <ID> <prop> [<prop>...]   - files a seeded change delivered in /tmp/seed/<ID>/SEEDED,
# confirms its demonstration in the worktree and runs the named checks against it through an overlay (/repo untouched)
export GOFLAGS=-mod=mod GOPROXY=off GOSUMDB=off GOTOOLCHAIN=local
ID=$1; shift
# SEED_ROOT / SEED_SUFFIX: a later round keeps its worktrees in another directory and files its changes as seeded/<ID><suffix>
ROOT=${SEED_ROOT:-/tmp/seed}
W=$ROOT/$ID
D=/verif/seeded/$ID${SEED_SUFFIX:-}
mkdir -p $D && cp -r $W/SEEDED/. $D/
cd $W || exit 2
files=$(git diff --name-only | grep -v '^SEEDED' | grep '\.go$')
echo "== $ID changed files: $files"
# demonstration: changed code must fail, original must pass
for f in $D/demonstration/*_test.go; do [ -f "$f" ] && cp $f $W/server/ ; done
res_changed=$(go test -vet=off -count=1 -run 'TestSeededDemo' ./server/ 2>&1 | tail -1)
git diff -- $files > $ROOT/$ID.patch
git apply -R $ROOT/$ID.patch
res_orig=$(go test -vet=off -count=1 -run 'TestSeededDemo' ./server/ 2>&1 | tail -1)
git apply $ROOT/$ID.patch
rm -f $W/server/seeded_demo_test.go $W/server/append.aof.* $W/server/rewrite.aof*
echo "== $ID demonstration: changed code -> $res_changed | original -> $res_orig"
ov=$ROOT/$ID.overlay.json
python3 - "$W" $files > $ov <<'P'
import json,sys
w=sys.argv[1]
print(json.dumps({"Replace":{"/repo/"+f: w+"/"+f for f in sys.argv[2:]}}))
P
cd /verif
for p in "$@"; do
  out=$(VERIF_MUTANT_OVERLAY=$ov ./check $p quick 2>&1)
  echo "== $ID vs check $p: exit=$? $(echo "$out" | grep '^SUMMARY' | cut -c1-140)"
  echo "$out" | grep '^VIOLATION' | head -2 | cut -c1-260
done
