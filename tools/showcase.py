#!/usr/bin/env python3
"""Print a core-engine replay focused on the key of its first finding."""
import json,re,sys
d=json.load(open(sys.argv[1]))
print(d.get('config'), 'panic=',d.get('panic'))
fs=d.get('findings',[])
for f in fs[:int(sys.argv[2]) if len(sys.argv)>2 else 3]: print('F:',f[:400])
key=None
if fs:
    m=re.search(r'db(\d)/k(\d+)',fs[0])
    if m: key='db%s k%s'%(m.group(1),m.group(2))
if len(sys.argv)>3: key=sys.argv[3]
print('key',key)
for o in d['ops']:
    if key is None or key in o or o.startswith('tick'): print(o)
print()
for e in d['events_tail']:
    if key is None or key in e: print(e)
