#!/bin/bash
# usage: sweep.sh <tier> <outdir> <seed>... - runs every registered check at the given seeds from fresh processes,
# keeps each full output in <outdir>/<prop>.<seed>.out and prints one line per run
export GOFLAGS=-mod=mod GOPROXY=off GOSUMDB=off GOTOOLCHAIN=local
tier=$1; out=$2; shift 2
mkdir -p $out
cd /verif
for s in "$@"; do
  for p in C01 C02 C03 C04 C05 C06 C07 C08 C09 C10 C11 C12 C13 C14 C15 C16 C17 C18 C19 C20; do
    VERIF_SEED=$s ./check $p $tier > $out/$p.$s.out 2>&1
    rc=$?
    echo "$p seed=$s exit=$rc $(grep -c '^VIOLATION' $out/$p.$s.out) violations; $(grep '^SUMMARY' $out/$p.$s.out | cut -c1-160)"
    if [ $rc -ne 0 ]; then mkdir -p $out/replays.$p.$s; cp -r replays/$p/. $out/replays.$p.$s/ 2>/dev/null; fi
  done
done
echo done
